/-
Core/Syntax.lean — abstract syntax and values of the SCSS fragment modelled for
C16 (variable scoping) and C18 (argument binding, @return, closures, @content).

The fragment is what the generators of props/C16.py and props/C18.py emit; the very same
generator object prints SCSS text for rsass and a prefix term (Core/Term.lean) for this
model.  Import-free on purpose (links into `lean_exe` drivers).
-/
namespace Core

/-- Identifiers as code points (kernel-reducible, unlike `String`). -/
abbrev Name := List Char

/-- `impl From<&str> for Name` (rsass/src/sass/name.rs): `-` and `_` are the same
character in a Sass name; the key stores `_`. -/
def normName (n : Name) : Name := n.map fun c => if c = '-' then '_' else c

/-- `impl Display for Name`: prints `_` as `-`. -/
def showName (n : Name) : Name := n.map fun c => if c = '_' then '-' else c

/-- Scalar values. -/
inductive Atom
  | null
  | num (n : Int)
  | bool (b : Bool)
  | str (s : List Char)          -- unquoted string / identifier (may be empty: `unquote("")`)
  | qstr (s : List Char)         -- quoted string
deriving Repr, DecidableEq, Inhabited

/-- Values (`css::Value`) of the fragment.  Lists, maps and argument lists hold scalars
only (deeper nesting is answered `unmodelled` by the evaluator), which keeps the type
non-nested and `DecidableEq`. -/
inductive V
  | atom (a : Atom)
  | list (xs : List Atom) (comma : Bool)
  | map (kv : List (List Char × Atom))
  | arglist (pos : List Atom) (named : List (Name × Atom))
  | blist (xs : List Atom) (comma : Bool)      -- bracketed list `[…]`
deriving Repr, DecidableEq, Inhabited

def V.null : V := .atom .null
def V.num (n : Int) : V := .atom (.num n)

/-- What `!default` tests (`Some(Value::Null) | None` in `Scope::set_variable`): the value is
*exactly* `null`.  This is deliberately not `css::Value::is_null()`, which is also true for
`()`, for lists of nulls and for the empty unquoted string — those are defined values. -/
def V.isNull : V → Bool
  | .atom .null => true
  | _ => false

/-- `Value::is_true`: everything but `false` and `null`. -/
def V.isTrue : V → Bool
  | .atom .null => false
  | .atom (.bool false) => false
  | _ => true

/-- `Value::iter_items`: a list yields its items, a map is not generated for loops
(answered as a single item), anything else is a one-item list; `null`… is one item too
(rsass: `Value::Null => vec![]` — see `iterItems` note in notes/C16.md; never generated). -/
def V.items : V → List V
  | .list xs _ => xs.map V.atom
  | .arglist pos _ => pos.map V.atom
  | .blist xs _ => xs.map V.atom
  | v => [v]

inductive ArgKind
  | pos
  | named (n : Name)
  | splat
deriving Repr, DecidableEq, Inhabited

/-- SassScript expressions of the fragment. -/
inductive Expr
  | null
  | num (n : Int)
  | bool (b : Bool)
  | ident (s : List Char)
  | qstr (s : List Char)
  | blist (xs : List Expr) (comma : Bool)
  | var (x : Name)
  | add (a b : Expr)
  | lt (a b : Expr)
  | eq (a b : Expr)
  | list (xs : List Expr) (comma : Bool)
  | map (kv : List (List Char × Expr))
  | call (f : Name) (args : List (ArgKind × Expr))
  | inspect (e : Expr)            -- global `inspect($value)`
  | keywords (e : Expr)           -- global `keywords($args)`
deriving Repr, Inhabited

abbrev Args := List (ArgKind × Expr)

/-- `FormalArgs(Box<[(Name, Option<Value>)]>, Option<Name>)`. -/
structure Params where
  ps : List (Name × Option Expr)
  rest : Option Name
deriving Repr, Inhabited

def Params.none : Params := ⟨[], .none⟩

/-- Statements (`sass::Item`) of the fragment. `emit p e` is the observation
`r { p: e }` (a rule holding one declaration). -/
inductive Stmt
  | decl (x : Name) (e : Expr) (dflt glob : Bool)
  | emit (p : List Char) (e : Expr)
  | rule (body : List Stmt)                       -- `a { … }`
  | media (body : List Stmt)                      -- `@media screen { … }`
  | atrule (body : List Stmt)                     -- `@supports (a: b) { … }`
  | ifS (c : Expr) (t e : List Stmt)
  | each (x : Name) (e : Expr) (body : List Stmt)
  | forS (x : Name) (a b : Expr) (incl : Bool) (body : List Stmt)
  | whileS (c : Expr) (body : List Stmt)
  | mixin (m : Name) (ps : Params) (body : List Stmt)
  | incl (m : Name) (args : Args) (hasBlock : Bool) (usingPs : Params) (block : List Stmt)
  | content (args : Args)
  | func (f : Name) (ps : Params) (body : List Stmt)
  | ret (e : Expr)
deriving Repr, Inhabited

/-! ### Printing of values (what `inspect()` and a declaration value show) -/

def showInt (n : Int) : List Char := (toString n).toList

def Atom.show : Atom → List Char
  | .null => "null".toList
  | .num n => showInt n
  | .bool true => "true".toList
  | .bool false => "false".toList
  | .str s => s
  | .qstr s => ['"'] ++ s ++ ['"']

def joinWith (sep : List Char) : List (List Char) → List Char
  | [] => []
  | [x] => x
  | x :: xs => x ++ sep ++ joinWith sep xs

/-- `inspect()` of a flat list: `()`, `(1,)`, `1, 2`, `1 2`. -/
def inspectList (xs : List Atom) (comma : Bool) : List Char :=
  match xs with
  | [] => "()".toList
  | [x] => if comma then "(".toList ++ x.show ++ ",)".toList else x.show
  | _ => joinWith (if comma then ", ".toList else " ".toList) (xs.map Atom.show)

/-- `Value::introspect` for the fragment. -/
def V.inspect : V → List Char
  | .atom a => a.show
  | .list xs c => inspectList xs c
  | .arglist pos _ => inspectList pos true
  | .blist xs c => ['['] ++ (match xs with
      | [] => []
      | [x] => if c then x.show ++ [','] else x.show
      | _ => joinWith (if c then ", ".toList else " ".toList) (xs.map Atom.show)) ++ [']']
  | .map [] => "()".toList
  | .map kv => "(".toList ++ joinWith ", ".toList (kv.map fun (k, v) => k ++ ": ".toList ++ v.show) ++ ")".toList

/-- Text of a declaration value; `none` = the declaration is omitted (null) or the
model has no opinion (only scalars are emitted plainly by the generators). -/
inductive Emit
  | omit
  | text (s : List Char)
  | unmodelled

def V.emit : V → Emit
  | .atom .null => .omit
  | .atom a => .text a.show
  | _ => .unmodelled

end Core
