/-
Core/LemmasScope.lean — helper lemmas about the heap of scopes (Core/Scope.lean) used by
Theorems/C16.lean.  No property theorems here.
-/
import RsassModel.Core.Scope
namespace Core

/-- heap well-formedness used by the theorems: parents are older scopes (`alloc` only
ever links a new scope to an existing one). -/
theorem Heap.WF.parent_lt {h : Heap} (wf : h.WF) {i : Nat} {sc : Scope} {p : Nat}
    (hi : h[i]? = some sc) (hp : sc.parent = some p) : p < i := by
  apply wf i p
  simp [parentAt, hi, hp]

theorem chainAux_fuel {h : Heap} (wf : h.WF) :
    ∀ (s fuel : Nat), s + 1 ≤ fuel → chainAux h fuel s = chainAux h (s + 1) s := by
  intro s
  induction s using Nat.strongRecOn with
  | _ s ih =>
    intro fuel hf
    obtain ⟨f, rfl⟩ : ∃ f, fuel = f + 1 := ⟨fuel - 1, by omega⟩
    simp only [chainAux]
    cases hs : h[s]? with
    | none => rfl
    | some sc =>
      simp only
      cases hp : sc.parent with
      | none => rfl
      | some p =>
        simp only
        have hlt : p < s := wf.parent_lt hs hp
        rw [ih p hlt f (by omega), ih p hlt s (by omega)]

theorem chain_unfold {h : Heap} (wf : h.WF) {s : Nat} {sc : Scope} (hs : h[s]? = some sc) :
    chain h s = s :: (match sc.parent with
                      | none => []
                      | some p => chain h p) := by
  show chainAux h (s + 1) s = _
  rw [chainAux]
  simp only [hs]
  cases hp : sc.parent with
  | none => rfl
  | some p =>
    simp only
    rw [chainAux_fuel wf p s (by have := wf.parent_lt hs hp; omega)]
    rfl

theorem chain_none {h : Heap} {s : Nat} (hs : h[s]? = none) : chain h s = [] := by
  simp [chain, chainAux, hs]

/-! ### the walk `findTarget` computes `assignSpec` -/

/-- `findTarget` read off the chain -/
def targetOf (h : Heap) (x : Name) : Bool → List Nat → Option Nat
  | _, [] => none
  | af, i :: r =>
    if declares h x i then (if r.isEmpty && !af then none else some i)
    else targetOf h x (af && flowAt h i) r

theorem chain_ne_nil {h : Heap} {s : Nat} {sc : Scope} (hs : h[s]? = some sc) : chain h s ≠ [] := by
  simp [chain, chainAux, hs]

theorem findTarget_eq {h : Heap} (wf : h.WF) (x : Name) :
    ∀ (cur fuel : Nat) (af : Bool), cur + 1 ≤ fuel →
      findTarget h x fuel cur af = targetOf h x af (chain h cur) := by
  intro cur
  induction cur using Nat.strongRecOn with
  | _ cur ih =>
    intro fuel af hf
    obtain ⟨f, rfl⟩ : ∃ f, fuel = f + 1 := ⟨fuel - 1, by omega⟩
    rw [findTarget]
    cases hs : h[cur]? with
    | none => simp [chain_none hs, targetOf]
    | some sc =>
      simp only
      rw [chain_unfold wf hs, targetOf]
      have hd : declares h x cur = (getAssoc x sc.vars).isSome := by simp [declares, varsAt, hs]
      have hfl : flowAt h cur = sc.flow := by simp [flowAt, hs]
      rw [hd, hfl]
      cases hp : sc.parent with
      | none => simp [targetOf]
      | some p =>
        have hlt : p < cur := wf.parent_lt hs hp
        have hcur : cur < h.size := by
          rcases Nat.lt_or_ge cur h.size with hlt' | hge
          · exact hlt'
          · simp [Array.getElem?_eq_none hge] at hs
        have hps : ∃ scp, h[p]? = some scp := ⟨h[p]'(by omega), by simp [Array.getElem?_eq_getElem (show p < h.size by omega)]⟩
        obtain ⟨scp, hps⟩ := hps
        have hne : chain h p ≠ [] := chain_ne_nil hps
        simp only [Option.isNone_some, Bool.false_and]
        rw [ih p hlt f (af && sc.flow) (by omega)]
        have he : (chain h p).isEmpty = false := by
          cases hc : chain h p with
          | nil => exact absurd hc hne
          | cons a r => rfl
        simp [he]

theorem specTarget_eq {h : Heap} (wf : h.WF) (s : Nat) (x : Name) :
    specTarget h s x = (targetOf h x true (chain h s)).getD s := by
  simp [specTarget, findTarget_eq wf x s (s + 1) true (Nat.le_refl _)]

/-- the same recursion on the frame abstraction, giving a position in the chain -/
def specIdx : Bool → List (Bool × Bool) → Option Nat
  | _, [] => none
  | af, (d, f) :: r =>
    if d then (if r.isEmpty && !af then none else some 0)
    else (specIdx (af && f) r).map (· + 1)

theorem targetOf_specIdx (h : Heap) (x : Name) :
    ∀ (c : List Nat) (af : Bool),
      targetOf h x af c = (specIdx af (c.map fun i => (declares h x i, flowAt h i))).bind (c[·]?) := by
  intro c
  induction c with
  | nil => intro af; simp [targetOf, specIdx]
  | cons i r ih =>
    intro af
    simp only [targetOf, List.map_cons, specIdx]
    by_cases hd : declares h x i
    · simp only [hd, if_true, List.isEmpty_map]
      by_cases hc : (r.isEmpty && !af) = true
      · simp [hc]
      · simp [hc]
    · simp only [hd, Bool.false_eq_true, if_false]
      rw [ih]
      cases specIdx (af && flowAt h i) (r.map fun i => (declares h x i, flowAt h i)) with
      | none => simp
      | some k => simp

theorem specIdx_findIdx :
    ∀ (fr : List (Bool × Bool)) (af : Bool),
      specIdx af fr =
        match fr.findIdx? (·.1) with
        | none => none
        | some i =>
          if decide (i + 1 < fr.length) || (af && (fr.take (fr.length - 1)).all (·.2)) then some i else none := by
  intro fr
  induction fr with
  | nil => intro af; simp [specIdx]
  | cons a r ih =>
    intro af
    obtain ⟨d, f⟩ := a
    cases d with
    | true =>
      simp only [specIdx, if_true, List.findIdx?_cons]
      cases r with
      | nil => cases af <;> simp
      | cons b r' => simp
    | false =>
      simp only [specIdx, Bool.false_eq_true, if_false, List.findIdx?_cons]
      rw [ih (af && f)]
      cases hfi : r.findIdx? (·.1) with
      | none => simp
      | some i =>
        have hlt : i < r.length := by
          have := List.findIdx?_eq_some_iff_getElem.mp hfi
          exact this.1
        obtain ⟨k, hk⟩ : ∃ k, r.length = k + 1 := ⟨r.length - 1, by omega⟩
        simp only [Option.map_some, List.length_cons, hk]
        have ht : List.take (k + 1 + 1 - 1) ((false, f) :: r) = (false, f) :: List.take k r := by
          simp
        rw [ht]
        simp only [Nat.add_sub_cancel, List.all_cons]
        by_cases h1 : i + 1 < k + 1
        · have h2 : i + 1 + 1 < k + 1 + 1 := by omega
          simp [h1, h2]
        · have h2 : ¬ (i + 1 + 1 < k + 1 + 1) := by omega
          simp only [h1, h2, decide_false, Bool.false_or]
          cases af <;> cases f <;> simp

theorem specIdx_assignSpec (fr : List (Bool × Bool)) (hne : fr ≠ []) :
    (specIdx true fr).getD 0 = assignSpec false fr := by
  rw [specIdx_findIdx]
  unfold assignSpec
  simp only [Bool.false_eq_true, if_false, Bool.true_and]
  by_cases hn : fr.length ≤ 1
  · simp only [hn, if_true]
    cases fr with
    | nil => exact absurd rfl hne
    | cons a r =>
      have : r = [] := by
        cases r with
        | nil => rfl
        | cons b r' => simp at hn
      subst this
      obtain ⟨d, f⟩ := a
      cases d <;> simp
  · simp only [hn, if_false]
    cases hfi : fr.findIdx? (·.1) with
    | none => simp
    | some i =>
      have hlt : i < fr.length := (List.findIdx?_eq_some_iff_getElem.mp hfi).1
      simp only
      by_cases h1 : i + 1 < fr.length
      · simp [h1]
      · simp only [h1, decide_false, Bool.false_or, if_false]
        have : i = fr.length - 1 := by omega
        by_cases h2 : (fr.take (fr.length - 1)).all (·.2) = true
        · simp [h2, this]
        · simp [h2]

/-! ### association lists -/

theorem getAssoc_setAssoc_self {β} (x : Name) (v : β) (m : List (Name × β)) :
    getAssoc x (setAssoc x v m) = some v := by
  induction m with
  | nil => simp [setAssoc, getAssoc]
  | cons a r ih =>
    obtain ⟨y, w⟩ := a
    by_cases hy : y = x
    · simp [setAssoc, getAssoc, hy]
    · simp [setAssoc, getAssoc, hy, ih]

theorem getAssoc_setAssoc_ne {β} {x y : Name} (hxy : y ≠ x) (v : β) (m : List (Name × β)) :
    getAssoc y (setAssoc x v m) = getAssoc y m := by
  induction m with
  | nil => simp [setAssoc, getAssoc, Ne.symm hxy]
  | cons a r ih =>
    obtain ⟨z, w⟩ := a
    by_cases hz : z = x
    · subst hz
      simp [setAssoc, getAssoc, Ne.symm hxy]
    · by_cases hzy : z = y
      · subst hzy
        simp [setAssoc, getAssoc, hz]
      · simp [setAssoc, getAssoc, hz, hzy, ih]

theorem getAssoc_eraseAssoc_self {β} (x : Name) (m : List (Name × β)) :
    getAssoc x (eraseAssoc x m) = none := by
  induction m with
  | nil => simp [eraseAssoc, getAssoc]
  | cons a r ih =>
    obtain ⟨y, w⟩ := a
    by_cases hy : y = x
    · simp [eraseAssoc, hy, ih]
    · simp [eraseAssoc, getAssoc, hy, ih]

theorem getAssoc_eraseAssoc_ne {β} {x y : Name} (hxy : y ≠ x) (m : List (Name × β)) :
    getAssoc y (eraseAssoc x m) = getAssoc y m := by
  induction m with
  | nil => simp [eraseAssoc, getAssoc]
  | cons a r ih =>
    obtain ⟨z, w⟩ := a
    by_cases hz : z = x
    · subst hz
      simp [eraseAssoc, getAssoc, Ne.symm hxy, ih]
    · by_cases hzy : z = y
      · subst hzy
        simp [eraseAssoc, getAssoc, hz]
      · simp [eraseAssoc, getAssoc, hz, hzy, ih]

/-! ### heap updates -/

theorem varsAt_insertAt_self (h : Heap) (t : Nat) (ht : t < h.size) (x : Name) (v : V) :
    varsAt (insertAt h t x v) t = setAssoc x v (varsAt h t) := by
  simp [varsAt, insertAt, ht, Array.getElem_modify]

theorem getElem?_insertAt_ne (h : Heap) {t i : Nat} (hne : i ≠ t) (x : Name) (v : V) :
    (insertAt h t x v)[i]? = h[i]? := by
  simp [insertAt, Array.getElem?_modify, Ne.symm hne]

theorem parentAt_insertAt (h : Heap) (t i : Nat) (x : Name) (v : V) :
    parentAt (insertAt h t x v) i = parentAt h i := by
  by_cases hti : t = i
  · subst hti
    simp only [parentAt, insertAt, Array.getElem?_modify, if_true]
    cases h[t]? <;> simp
  · simp [parentAt, insertAt, Array.getElem?_modify, hti]

theorem chainAux_mem_some {h : Heap} : ∀ (fuel s j : Nat), j ∈ chainAux h fuel s → ∃ sc, h[j]? = some sc := by
  intro fuel
  induction fuel with
  | zero => intro s j hj; simp [chainAux] at hj
  | succ f ih =>
    intro s j hj
    rw [chainAux] at hj
    cases hs : h[s]? with
    | none => simp [hs] at hj
    | some sc =>
      simp only [hs, List.mem_cons] at hj
      rcases hj with rfl | hj
      · exact ⟨sc, hs⟩
      · cases hp : sc.parent with
        | none => simp [hp] at hj
        | some p => simp only [hp] at hj; exact ih p j hj

theorem chainAux_le {h : Heap} (wf : h.WF) : ∀ (fuel s j : Nat), j ∈ chainAux h fuel s → j ≤ s := by
  intro fuel
  induction fuel with
  | zero => intro s j hj; simp [chainAux] at hj
  | succ f ih =>
    intro s j hj
    rw [chainAux] at hj
    cases hs : h[s]? with
    | none => simp [hs] at hj
    | some sc =>
      simp only [hs, List.mem_cons] at hj
      rcases hj with rfl | hj
      · exact Nat.le_refl _
      · cases hp : sc.parent with
        | none => simp [hp] at hj
        | some p =>
          simp only [hp] at hj
          have := ih p j hj
          have := wf.parent_lt hs hp
          omega

theorem rootOf_lt {h : Heap} {s : Nat} (hs : s < h.size) : rootOf h s < h.size := by
  unfold rootOf
  cases hg : (chain h s).getLast? with
  | none => simpa using hs
  | some r =>
    have hm : r ∈ chain h s := List.mem_of_getLast? hg
    obtain ⟨sc, hsc⟩ := chainAux_mem_some _ _ _ hm
    rcases Nat.lt_or_ge r h.size with hlt | hge
    · simpa using hlt
    · simp [Array.getElem?_eq_none hge] at hsc

/-- `h'` agrees with `h` on every scope `≤ s`: the chains from `s` agree -/
theorem chainAux_congr {h h' : Heap} (wf : h.WF) :
    ∀ (fuel s : Nat), (∀ j, j ≤ s → h'[j]? = h[j]?) → chainAux h' fuel s = chainAux h fuel s := by
  intro fuel
  induction fuel with
  | zero => intro s _; rfl
  | succ f ih =>
    intro s hag
    rw [chainAux, chainAux, hag s (Nat.le_refl _)]
    cases hs : h[s]? with
    | none => rfl
    | some sc =>
      simp only
      cases hp : sc.parent with
      | none => rfl
      | some p =>
        simp only
        have hlt := wf.parent_lt hs hp
        rw [ih p (fun j hj => hag j (by omega))]

theorem findSome?_congr_mem {α β} (l : List α) (f g : α → Option β) (hfg : ∀ a ∈ l, f a = g a) :
    l.findSome? f = l.findSome? g := by
  induction l with
  | nil => rfl
  | cons a r ih =>
    simp only [List.findSome?_cons, hfg a (List.mem_cons_self ..)]
    cases g a with
    | some b => rfl
    | none => exact ih (fun b hb => hfg b (List.mem_cons_of_mem _ hb))

/-- a heap that agrees with `h` on the scopes `≤ s` gives every lookup from `s` the same answer -/
theorem lookup_congr {h h' : Heap} (wf : h.WF) (s : Nat) (hag : ∀ j, j ≤ s → h'[j]? = h[j]?) (y : Name) :
    lookup h' s y = lookup h s y := by
  unfold lookup chain
  rw [chainAux_congr wf (s + 1) s hag]
  apply findSome?_congr_mem
  intro j hj
  have hle := chainAux_le wf _ _ _ hj
  simp [varsAt, hag j hle]

/-- `h'` extends `h`: all scopes of `h` are unchanged (new ones may have been allocated) -/
def Heap.Ext (h h' : Heap) : Prop := h.size ≤ h'.size ∧ ∀ i, i < h.size → h'[i]? = h[i]?

theorem Heap.Ext.refl (h : Heap) : h.Ext h := ⟨Nat.le_refl _, fun _ _ => rfl⟩

theorem Heap.Ext.trans {a b c : Heap} (hab : a.Ext b) (hbc : b.Ext c) : a.Ext c :=
  ⟨Nat.le_trans hab.1 hbc.1, fun i hi => by rw [hbc.2 i (by have := hab.1; omega), hab.2 i hi]⟩

theorem Heap.Ext.lookup {h h' : Heap} (wf : h.WF) (he : h.Ext h') {s : Nat} (hs : s < h.size) (y : Name) :
    Core.lookup h' s y = Core.lookup h s y :=
  lookup_congr wf s (fun j hj => he.2 j (by omega)) y

theorem ext_alloc (h : Heap) (p : Nat) (k : Kind) (fl : Bool) : h.Ext (alloc h p k fl).1 := by
  refine ⟨by simp [alloc], fun i hi => ?_⟩
  simp [alloc, Array.getElem?_push, Nat.ne_of_lt hi]

theorem size_insertAt (h : Heap) (t : Nat) (x : Name) (v : V) : (insertAt h t x v).size = h.size := by
  simp [insertAt]

theorem ext_insertAt_fresh {h0 h : Heap} (he : h0.Ext h) {t : Nat} (ht : h0.size ≤ t) (x : Name) (v : V) :
    h0.Ext (insertAt h t x v) := by
  refine ⟨by rw [size_insertAt]; exact he.1, fun i hi => ?_⟩
  rw [getElem?_insertAt_ne h (by omega), he.2 i hi]

theorem ext_markLoopVar_fresh {h0 h : Heap} (he : h0.Ext h) {t : Nat} (ht : h0.size ≤ t) (x : Name) :
    h0.Ext (markLoopVar h t x) := by
  refine ⟨by simp [markLoopVar]; exact he.1, fun i hi => ?_⟩
  have : t ≠ i := by omega
  simp [markLoopVar, Array.getElem?_modify, this, he.2 i hi]

theorem wf_alloc {h : Heap} (wf : h.WF) {p : Nat} (hp : p < h.size) (k : Kind) (fl : Bool) :
    (alloc h p k fl).1.WF := by
  intro i q hq
  by_cases hi : i < h.size
  · have : parentAt (alloc h p k fl).1 i = parentAt h i := by
      simp [parentAt, alloc, Array.getElem?_push, Nat.ne_of_lt hi]
    exact wf i q (this ▸ hq)
  · by_cases hi2 : i = h.size
    · subst hi2
      simp [parentAt, alloc] at hq
      omega
    · have : (alloc h p k fl).1[i]? = none := by
        apply Array.getElem?_eq_none
        simp [alloc]; omega
      simp [parentAt, this] at hq

theorem wf_insertAt {h : Heap} (wf : h.WF) (t : Nat) (x : Name) (v : V) : (insertAt h t x v).WF := by
  intro i q hq
  rw [parentAt_insertAt] at hq
  exact wf i q hq

theorem wf_init : Heap.init.WF := by
  intro i q hq
  cases i with
  | zero => simp [parentAt, Heap.init] at hq
  | succ n => simp [parentAt, Heap.init] at hq

/-! ### frames: what a block may do to the scopes that existed before it -/

/-- `h` came from `h0` by allocating new scopes and by *assigning* to variables the old
scopes already declared: every old scope still has the same parent and declares exactly the
names it declared (values may differ). -/
def Heap.Upd (h0 h : Heap) : Prop :=
  h0.size ≤ h.size ∧ ∀ i, i < h0.size → parentAt h i = parentAt h0 i ∧ ∀ y, declares h y i = declares h0 y i

theorem Heap.Upd.refl (h : Heap) : h.Upd h := ⟨Nat.le_refl _, fun _ _ => ⟨rfl, fun _ => rfl⟩⟩

theorem Heap.Ext.toUpd {h0 h : Heap} (he : h0.Ext h) : h0.Upd h :=
  ⟨he.1, fun i hi => by simp [parentAt, declares, varsAt, he.2 i hi]⟩

theorem Heap.Upd.trans_ext {a b c : Heap} (hab : a.Upd b) (hbc : b.Ext c) : a.Upd c := by
  refine ⟨Nat.le_trans hab.1 hbc.1, fun i hi => ?_⟩
  have hib : i < b.size := by have := hab.1; omega
  have := hab.2 i hi
  simp only [parentAt, declares, varsAt, hbc.2 i hib] at this ⊢
  exact this

theorem Heap.Upd.trans {a b c : Heap} (hab : a.Upd b) (hbc : b.Upd c) : a.Upd c := by
  refine ⟨Nat.le_trans hab.1 hbc.1, fun i hi => ?_⟩
  have hib : i < b.size := by have := hab.1; omega
  obtain ⟨p1, d1⟩ := hab.2 i hi
  obtain ⟨p2, d2⟩ := hbc.2 i hib
  exact ⟨p2.trans p1, fun y => (d2 y).trans (d1 y)⟩

theorem upd_insertAt_newer {h0 h : Heap} (hu : h0.Upd h) {t : Nat} (ht : h0.size ≤ t) (x : Name) (v : V) :
    h0.Upd (insertAt h t x v) := by
  refine ⟨by rw [size_insertAt]; exact hu.1, fun i hi => ?_⟩
  have hit : i ≠ t := by omega
  have := hu.2 i hi
  simp only [parentAt, declares, varsAt, getElem?_insertAt_ne h hit] at this ⊢
  exact this

theorem upd_markLoopVar_newer {h0 h : Heap} (hu : h0.Upd h) {t : Nat} (ht : h0.size ≤ t) (x : Name) :
    h0.Upd (markLoopVar h t x) := by
  refine ⟨by simp [markLoopVar]; exact hu.1, fun i hi => ?_⟩
  have hit : t ≠ i := by omega
  have := hu.2 i hi
  simp only [parentAt, declares, varsAt, markLoopVar, Array.getElem?_modify, hit, if_false] at this ⊢
  exact this

/-- changing anything but the parent and the variables of a scope is an `Upd` step -/
theorem upd_modify_keep (h : Heap) (j : Nat) (f : Scope → Scope)
    (hf : ∀ sc, (f sc).parent = sc.parent ∧ (f sc).vars = sc.vars) : h.Upd (h.modify j f) := by
  refine ⟨by simp, fun i _ => ?_⟩
  by_cases hji : j = i
  · subst hji
    simp only [parentAt, declares, varsAt, Array.getElem?_modify, if_true]
    cases h[j]? with
    | none => simp
    | some sc => simp [(hf sc).1, (hf sc).2]
  · simp [parentAt, declares, varsAt, Array.getElem?_modify, hji]

theorem upd_markGhosts (h : Heap) (t : Nat) (x : Name) : h.Upd (markGhosts h t x) := by
  unfold markGhosts
  generalize ghostScopes h ((chain h t).drop 1) = l
  induction l generalizing h with
  | nil => exact Heap.Upd.refl h
  | cons j r ih =>
    simp only [List.foldl_cons]
    refine Heap.Upd.trans (upd_modify_keep h j _ ?_) (ih _)
    intro sc
    split <;> simp

theorem findTarget_declares (h : Heap) (x : Name) : ∀ (fuel cur : Nat) (af : Bool) (t : Nat),
    findTarget h x fuel cur af = some t → declares h x t = true := by
  intro fuel
  induction fuel with
  | zero => intro cur af t ht; simp [findTarget] at ht
  | succ f ih =>
    intro cur af t ht
    rw [findTarget] at ht
    cases hs : h[cur]? with
    | none => simp [hs] at ht
    | some sc =>
      simp only [hs] at ht
      by_cases hd : (getAssoc x sc.vars).isSome = true
      · simp only [hd, if_true] at ht
        by_cases hc : (sc.parent.isNone && !af) = true
        · simp [hc] at ht
        · simp only [hc, Bool.false_eq_true, if_false, Option.some.injEq] at ht
          subst ht
          simp [declares, varsAt, hs, hd]
      · simp only [hd, Bool.false_eq_true, if_false] at ht
        cases hp : sc.parent with
        | none => simp [hp] at ht
        | some p => simp only [hp] at ht; exact ih p _ t ht

/-- assigning to a variable the scope already declares is an `Upd` step -/
theorem upd_insertAt_declared (h : Heap) (t : Nat) (x : Name) (v : V) (hd : declares h x t = true) :
    h.Upd (insertAt h t x v) := by
  refine ⟨by rw [size_insertAt]; exact Nat.le_refl _, fun i hi => ⟨parentAt_insertAt h t i x v, fun y => ?_⟩⟩
  by_cases hit : i = t
  · subst hit
    simp only [declares, varsAt_insertAt_self h i hi]
    by_cases hy : y = x
    · subst hy; simpa [getAssoc_setAssoc_self, declares] using hd.symm
    · rw [getAssoc_setAssoc_ne hy]
  · simp [declares, varsAt, getElem?_insertAt_ne h hit]

/-- **any non-`!global` assignment executed in a scope newer than `h0` is an `Upd h0` step**
(any flags): it lands in the executing scope itself or in a scope that already declares the name -/
theorem upd_setVariable_local {h0 h : Heap} (hu : h0.Upd h) (q : ScopeQuirks) {s : Nat} (hs : h0.size ≤ s)
    (x : Name) (v : V) (dflt : Bool) : h0.Upd (setVariable q h s x v dflt false) := by
  unfold setVariable
  generalize (dflt && match lookup h s x with
                      | none => false
                      | some w => !w.isNull) = c
  cases c with
  | true => exact hu
  | false =>
    simp only [Bool.false_eq_true, if_false]
    by_cases hl : q.localAt (kindAt h s) = true
    · rw [if_pos hl]; exact upd_insertAt_newer hu hs x v
    · rw [if_neg hl]
      unfold specTarget
      cases ht : findTarget h x (s + 1) s true with
      | none => exact upd_insertAt_newer hu hs x v
      | some t =>
        exact Heap.Upd.trans hu (upd_insertAt_declared h t x v (findTarget_declares h x _ _ _ t ht))

end Core
