/-
Core/Scope.lean — heap of scopes, mirroring rsass/src/variablescope.rs.

`Scope` objects are shared (`Arc<Scope>`), mutable (`Mutex<BTreeMap<Name, Value>>`) and
captured by closures, so the model keeps them in an explicit heap (`Array Scope`),
addressed by index, with parent links.  Scopes are only ever allocated at the end of the
heap with an already existing parent (`alloc`), so `parent < self` (`Heap.WF`).

Rust ↔ Lean
  Scope::get / get_or_none / get_local_or_none      lookup
  Scope::set_variable (as it is)                     setVariable asisScopeQuirks
  Scope::define                                      insertLocal   (= set_variable(_, _, false, false))
  Scope::define_global                               rootOf + insertAt
  Scope::store_local_values / restore_local_values   storeLocal / restoreLocal
  ScopeRef::sub / sub_selectors                      alloc
  DESIGN §7 C16 `assignSpec`                         assignSpec (on the chain abstraction)
-/
import RsassModel.Core.Syntax
namespace Core

/-- Which construct created a scope (one constructor per `ScopeRef::sub*` call site that
the fragment reaches, plus the flow-control blocks that have no scope of their own in
rsass today). -/
inductive Kind
  | root
  | rule        -- transform.rs Item::Rule            sub_selectors
  | media       -- transform.rs Item::AtMedia         sub
  | atrule      -- transform.rs Item::AtRule          sub
  | forIter     -- transform.rs Item::For             sub (one per iteration)
  | whileLoop   -- transform.rs Item::While           sub (one per loop)
  | ifBlock     -- (spec only) body of @if
  | eachLoop    -- (spec only) body of @each
  | callee      -- mixin.rs / callable.rs             sub_selectors(decl.scope, sel)
  | mixinArgs   -- formal_args.rs eval                sub (argscope; mixin body runs here)
  | fnArgs      --   "                                 (function body runs here)
  | contentArgs --   "                                 (content block runs here)
  | fnWhile     -- variablescope.rs eval_body While   sub
  | fnFlow      -- (spec only) @if/@each/@for body inside a function
deriving Repr, DecidableEq, Inhabited

/-- `sass::Closure`: a callable with the scope it was declared in. -/
structure Closure where
  ps : Params
  body : List Stmt
  scope : Nat
deriving Repr, Inhabited

/-- `MixinDecl` as stored by `define_content`. -/
inductive ContentDecl
  | noBody
  | block (c : Closure)
deriving Repr, Inhabited

structure Scope where
  parent : Option Nat
  vars : List (Name × V) := []
  flow : Bool := false
  kind : Kind := .root
  mixins : List (Name × Closure) := []
  fns : List (Name × Closure) := []
  content : Option ContentDecl := none
  /-- spec evaluator only: names whose first declaration happened inside a flow-control
  block that has ended (DESIGN §7 C16: whether these leak is unspecified). -/
  ghosts : List Name := []
  /-- spec evaluator only: loop variables bound in this (flow) scope. -/
  loopVars : List Name := []
deriving Repr, Inhabited

abbrev Heap := Array Scope

/-! ### association lists (`BTreeMap<Name, _>`; iteration order is never observed) -/

def getAssoc {β} (x : Name) : List (Name × β) → Option β
  | [] => none
  | (y, w) :: r => if y = x then some w else getAssoc x r

def setAssoc {β} (x : Name) (v : β) : List (Name × β) → List (Name × β)
  | [] => [(x, v)]
  | (y, w) :: r => if y = x then (x, v) :: r else (y, w) :: setAssoc x v r

def eraseAssoc {β} (x : Name) : List (Name × β) → List (Name × β)
  | [] => []
  | (y, w) :: r => if y = x then eraseAssoc x r else (y, w) :: eraseAssoc x r

/-! ### heap access -/

def varsAt (h : Heap) (i : Nat) : List (Name × V) :=
  match h[i]? with
  | some sc => sc.vars
  | none => []

def declares (h : Heap) (x : Name) (i : Nat) : Bool := (getAssoc x (varsAt h i)).isSome

def flowAt (h : Heap) (i : Nat) : Bool :=
  match h[i]? with
  | some sc => sc.flow
  | none => false

def kindAt (h : Heap) (i : Nat) : Kind :=
  match h[i]? with
  | some sc => sc.kind
  | none => .root

def parentAt (h : Heap) (i : Nat) : Option Nat :=
  match h[i]? with
  | some sc => sc.parent
  | none => none

/-- Parent chain of scope `s`, innermost first, root last.  `fuel` only has to cover the
length of the chain; `chain` passes `s + 1`, which is enough for every heap built by
`alloc` (`parent < self`). -/
def chainAux (h : Heap) : Nat → Nat → List Nat
  | 0, _ => []
  | fuel + 1, s =>
    match h[s]? with
    | none => []
    | some sc =>
      s :: (match sc.parent with
            | none => []
            | some p => chainAux h fuel p)

def chain (h : Heap) (s : Nat) : List Nat := chainAux h (s + 1) s

/-- `Scope::get_local_or_none`: own map first, then the parent's. -/
def lookup (h : Heap) (s : Nat) (x : Name) : Option V :=
  (chain h s).findSome? fun i => getAssoc x (varsAt h i)

/-- the scope `define_global` ends in: the ultimate parent. -/
def rootOf (h : Heap) (s : Nat) : Nat := (chain h s).getLast?.getD s

/-- `self.variables.lock().unwrap().insert(name, val)` on scope `t`. -/
def insertAt (h : Heap) (t : Nat) (x : Name) (v : V) : Heap :=
  h.modify t fun sc => { sc with vars := setAssoc x v sc.vars, ghosts := sc.ghosts.filter (· ≠ x) }

/-- `Scope::define` = `set_variable(name, val, false, false)` as the code has it. -/
def insertLocal (h : Heap) (s : Nat) (x : Name) (v : V) : Heap := insertAt h s x v

/-- `ScopeRef::sub(parent)` / `sub_selectors`: a fresh scope at the end of the heap. -/
def alloc (h : Heap) (parent : Nat) (kind : Kind) (flow : Bool) : Heap × Nat :=
  (h.push { parent := some parent, kind := kind, flow := flow }, h.size)

def Heap.init : Heap := #[{ parent := none, kind := .root }]

/-- every parent link points to an older scope -/
def Heap.WF (h : Heap) : Prop := ∀ i p, parentAt h i = some p → p < i

/-! ### deviation flags of the scope family -/

/-- One flag per `ScopeRef::sub*` call site at which an assignment executed directly in
the created scope is inserted there regardless of outer declarations
(`set_variable` has no walk), plus the structural facts "this flow-control body has no
scope of its own".  `spec` = all off. -/
structure ScopeQuirks where
  localRule : Bool := false
  localMedia : Bool := false
  localAtRule : Bool := false
  localFor : Bool := false
  localWhile : Bool := false
  localMixin : Bool := false
  localContent : Bool := false
  localFn : Bool := false
  localFnWhile : Bool := false
  /-- transform.rs `Item::IfStatement`: body handled in the enclosing scope -/
  noIfScope : Bool := false
  /-- transform.rs `Item::Each`: body handled in the enclosing scope (store/restore of loop variables) -/
  noEachScope : Bool := false
  /-- variablescope.rs `eval_body`: `@if/@each/@for` bodies of a function run in the function's own scope -/
  fnNoFlowScopes : Bool := false
deriving Repr, DecidableEq, Inhabited

def specScopeQuirks : ScopeQuirks := {}

def asisScopeQuirks : ScopeQuirks :=
  { localRule := true, localMedia := true, localAtRule := true, localFor := true, localWhile := true,
    localMixin := true, localContent := true, localFn := true, localFnWhile := true,
    noIfScope := true, noEachScope := true, fnNoFlowScopes := true }

def ScopeQuirks.localAt (q : ScopeQuirks) : Kind → Bool
  | .rule => q.localRule
  | .media => q.localMedia
  | .atrule => q.localAtRule
  | .forIter => q.localFor
  | .whileLoop => q.localWhile
  | .mixinArgs => q.localMixin
  | .contentArgs => q.localContent
  | .fnArgs => q.localFn
  | .fnWhile => q.localFnWhile
  | _ => false

/-! ### the specification (DESIGN §7 C16), on the chain abstraction -/

/-- `frames` = for every scope of the chain (innermost first, root last) whether it
declares the assigned name, and whether it is the body of `@if/@each/@for/@while`.
Result: position in the chain of the scope the (non-`!default`-suppressed) write lands in.

* `!global` ⇒ the root;  a chain consisting of the root only ⇒ the root;
* otherwise let `i` be the first scope that declares the name:
  `i` is not the root ⇒ scope `i`;
  `i` is the root ⇒ the root iff every scope below the root is a flow-control body
  ("top-level flow control"), else a new local in the innermost scope;
  no scope declares it ⇒ a new local in the innermost scope. -/
def assignSpec (glob : Bool) (frames : List (Bool × Bool)) : Nat :=
  let n := frames.length
  if glob then n - 1
  else if n ≤ 1 then 0
  else
    match frames.findIdx? (·.1) with
    | none => 0
    | some i =>
      if i + 1 < n then i
      else if (frames.take (n - 1)).all (·.2) then n - 1
      else 0

def frames (h : Heap) (s : Nat) (x : Name) : List (Bool × Bool) :=
  (chain h s).map fun i => (declares h x i, flowAt h i)

/-! ### the walk a scoping-correct `set_variable` performs on the heap -/

/-- Walk from `cur` towards the root looking for the scope to update.
`allFlow` = every scope passed so far (strictly below `cur`) is a flow-control body.
`some t` = update scope `t`;  `none` = nothing to update (declare a new local). -/
def findTarget (h : Heap) (x : Name) : Nat → Nat → Bool → Option Nat
  | 0, _, _ => none
  | fuel + 1, cur, allFlow =>
    match h[cur]? with
    | none => none
    | some sc =>
      if (getAssoc x sc.vars).isSome then
        (if sc.parent.isNone && !allFlow then none else some cur)
      else
        match sc.parent with
        | none => none
        | some p => findTarget h x fuel p (allFlow && sc.flow)

def specTarget (h : Heap) (s : Nat) (x : Name) : Nat :=
  (findTarget h x (s + 1) s true).getD s

/-- `Scope::set_variable(name, val, default, global)` executed on scope `s`
(module-qualified names are outside the fragment).
With `q.localAt (kind of s)` the code's behaviour: plain insert into `s`.
Without: the specified walk. -/
def setVariable (q : ScopeQuirks) (h : Heap) (s : Nat) (x : Name) (v : V) (dflt glob : Bool) : Heap :=
  if dflt && (match lookup h s x with
              | none => false
              | some w => !w.isNull) then h
  else if glob then insertAt h (rootOf h s) x v
  else if q.localAt (kindAt h s) then insertAt h s x v
  else insertAt h (specTarget h s x) x v

/-- The specification of an assignment as a heap transformer: `!default` suppresses the
write unless the lookup through the chain is undefined or null; otherwise the write lands
in the chain position chosen by `assignSpec`. -/
def assignSpecHeap (h : Heap) (s : Nat) (x : Name) (v : V) (dflt glob : Bool) : Heap :=
  if dflt && (match lookup h s x with
              | none => false
              | some w => !w.isNull) then h
  else insertAt h ((chain h s).getD (assignSpec glob (frames h s x)) s) x v

/-! ### `store_local_values` / `restore_local_values` (around `@each`, transform.rs) -/

def storeLocal (h : Heap) (s : Nat) (x : Name) : Option V := getAssoc x (varsAt h s)

def restoreLocal (h : Heap) (s : Nat) (x : Name) (o : Option V) : Heap :=
  match o with
  | some v => h.modify s fun sc => { sc with vars := setAssoc x v sc.vars }
  | none => h.modify s fun sc => { sc with vars := eraseAssoc x sc.vars }

/-! ### spec evaluator only: the "unspecified region" detector (ghosts)

A variable *first declared* inside a flow-control block lives in that block's scope.
Whether it is visible from outside the block (after the block, or — through a function
or mixin defined outside — while it runs) is not specified by the property (rsass puts
it into the enclosing scope for `@if/@each`).  When an assignment creates a new variable
in a flow scope, the enclosing scopes up to and including the nearest non-flow one get a
*ghost* of that name; any later lookup that meets a ghost before a real declaration
would have to decide whether the variable leaked, and makes the rest of the run
unspecified (`Err.unspec`). -/

def ghostAt (h : Heap) (x : Name) (i : Nat) : Bool :=
  match h[i]? with
  | some sc => sc.ghosts.contains x
  | none => false

/-- does a read of `x` from `s` meet a ghost before a real declaration? -/
def ghostRead (h : Heap) (s : Nat) (x : Name) : Bool :=
  ((chain h s).findSome? fun i =>
    if declares h x i then some false else if ghostAt h x i then some true else none).getD false

def ghostAssign (h : Heap) (s : Nat) (x : Name) (dflt glob : Bool) : Bool :=
  if dflt && ghostRead h s x then true
  else if glob then (!declares h x (rootOf h s) && ghostAt h x (rootOf h s))
  else if declares h x s || ghostAt h x s then false   -- lands in `s` either way
  -- the specified target is `s` itself (new local / shadow): under either reading of the
  -- leak question every later read that does not itself meet the ghost sees the same value
  else if specTarget h s x == s then false
  else match parentAt h s with
    | none => false
    | some p => ghostRead h p x

/-- the enclosing scopes that receive the ghost: flow scopes, then the first non-flow one -/
def ghostScopes (h : Heap) : List Nat → List Nat
  | [] => []
  | i :: r => if flowAt h i then i :: ghostScopes h r else [i]

def markGhosts (h : Heap) (t : Nat) (x : Name) : Heap :=
  (ghostScopes h ((chain h t).drop 1)).foldl
    (fun h i => h.modify i fun sc => if sc.ghosts.contains x then sc else { sc with ghosts := x :: sc.ghosts }) h

/-- after a (spec) assignment from `s` on heap `h0` gave `h1`: if it created a new
variable in a flow scope, mark the ghosts -/
def ghostMark (h0 h1 : Heap) (s : Nat) (x : Name) (dflt glob : Bool) : Heap :=
  let suppressed := dflt && (match lookup h0 s x with
                             | none => false
                             | some w => !w.isNull)
  if suppressed || glob then h1
  else
    let t := specTarget h0 s x
    if flowAt h0 t && !declares h0 x t then markGhosts h1 t x else h1

def markLoopVar (h : Heap) (f : Nat) (x : Name) : Heap :=
  h.modify f fun sc => { sc with loopVars := x :: sc.loopVars }

end Core
