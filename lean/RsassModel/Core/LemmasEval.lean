/-
Core/LemmasEval.lean — small unfolding lemmas about the evaluator (Core/Eval.lean).
-/
import RsassModel.Core.Eval
import RsassModel.Core.LemmasScope
namespace Core

theorem exec_nil (fuel : Nat) (cfg : Cfg) (fn : Bool) (s : Nat) (st : St) :
    exec (fuel + 1) cfg fn s [] st = .ok (none, st) := by
  simp [exec]


/-! ### binding a prefix of already evaluated arguments -/

def bindVals (h : Heap) (a : Nat) (vs : List (Name × V)) : Heap :=
  vs.foldl (fun h b => insertLocal h a b.1 b.2) h

theorem size_bindVals (a : Nat) : ∀ (vs : List (Name × V)) (h : Heap), (bindVals h a vs).size = h.size := by
  intro vs
  induction vs with
  | nil => intro h; rfl
  | cons b r ih => intro h; simp only [bindVals, List.foldl_cons] at ih ⊢; rw [ih]; simp [insertLocal, size_insertAt]

theorem wf_bindVals (a : Nat) : ∀ (vs : List (Name × V)) (h : Heap), h.WF → (bindVals h a vs).WF := by
  intro vs
  induction vs with
  | nil => intro h wf; exact wf
  | cons b r ih => intro h wf; simp only [bindVals, List.foldl_cons] at ih ⊢; exact ih _ (wf_insertAt wf _ _ _)

theorem getAssoc_bindVals_ne (a : Nat) (x : Name) : ∀ (vs : List (Name × V)) (h : Heap), a < h.size →
    x ∉ vs.map (·.1) → getAssoc x (varsAt (bindVals h a vs) a) = getAssoc x (varsAt h a) := by
  intro vs
  induction vs with
  | nil => intro h _ _; rfl
  | cons b r ih =>
    intro h ha hx
    simp only [List.map_cons, List.mem_cons, not_or] at hx
    simp only [bindVals, List.foldl_cons] at ih ⊢
    rw [ih _ (by simp [insertLocal, size_insertAt, ha]) hx.2, insertLocal, varsAt_insertAt_self _ _ ha,
      getAssoc_setAssoc_ne hx.1]

theorem getAssoc_bindVals_mem (a : Nat) : ∀ (vs : List (Name × V)) (h : Heap), a < h.size →
    (vs.map (·.1)).Nodup → ∀ b ∈ vs, getAssoc b.1 (varsAt (bindVals h a vs) a) = some b.2 := by
  intro vs
  induction vs with
  | nil => intro h _ _ b hb; simp at hb
  | cons c r ih =>
    intro h ha hnd b hb
    simp only [List.map_cons, List.nodup_cons] at hnd
    have ha' : a < (insertLocal h a c.1 c.2).size := by simp [insertLocal, size_insertAt, ha]
    simp only [List.mem_cons] at hb
    rcases hb with rfl | hb
    · show getAssoc b.1 (varsAt (bindVals (insertLocal h a b.1 b.2) a r) a) = some b.2
      rw [getAssoc_bindVals_ne a b.1 r _ ha' hnd.1, insertLocal, varsAt_insertAt_self _ _ ha,
        getAssoc_setAssoc_self]
    · exact ih _ ha' hnd.2 b hb

/-- a variable declared in scope `s` itself is what a lookup from `s` finds -/
theorem lookup_of_declared {h : Heap} (wf : h.WF) {s : Nat} (hs : s < h.size) {x : Name} {v : V}
    (hd : getAssoc x (varsAt h s) = some v) : lookup h s x = some v := by
  obtain ⟨sc, hsc⟩ : ∃ sc, h[s]? = some sc := ⟨h[s], by simp [Array.getElem?_eq_getElem hs]⟩
  unfold lookup
  rw [chain_unfold wf hsc]
  simp [List.findSome?_cons, hd]

theorem ghostRead_of_declared {h : Heap} (wf : h.WF) {s : Nat} (hs : s < h.size) {x : Name} {v : V}
    (hd : getAssoc x (varsAt h s) = some v) : ghostRead h s x = false := by
  obtain ⟨sc, hsc⟩ : ∃ sc, h[s]? = some sc := ⟨h[s], by simp [Array.getElem?_eq_getElem hs]⟩
  unfold ghostRead
  rw [chain_unfold wf hsc]
  simp [List.findSome?_cons, declares, hd]

/-- `runBinds` over a prefix of evaluated arguments: they are inserted into the argscope,
no expression is evaluated, then the rest of the plan runs -/
theorem runBinds_vals_prefix (cfg : Cfg) (a : Nat) (post : List (Name × Binding)) (f : Nat) :
    ∀ (vs : List (Name × V)) (st : St),
      runBinds (f + vs.length) cfg a (vs.map (fun b => (b.1, Binding.val b.2)) ++ post) st =
        runBinds f cfg a post { st with heap := bindVals st.heap a vs } := by
  intro vs
  induction vs with
  | nil => intro st; rfl
  | cons b r ih =>
    intro st
    simp only [List.length_cons, List.map_cons, List.cons_append]
    rw [show f + (r.length + 1) = (f + r.length) + 1 from by omega, runBinds]
    rw [ih]
    rfl

/-! ### expressions without calls leave the state alone (the declaration-only fragment) -/

def Expr.isAtomE : Expr → Bool
  | .null | .num _ | .bool _ | .ident _ | .qstr _ | .var _ => true
  | _ => false

/-- literals, variable reads, and one arithmetic / comparison step over them -/
def Expr.simple : Expr → Bool
  | .add a b | .lt a b | .eq a b => a.isAtomE && b.isAtomE
  | e => e.isAtomE

theorem readVar_state {cfg : Cfg} {s : Nat} {x : Name} {st st' : St} {v : V}
    (h : readVar cfg s x st = .ok (v, st')) : st' = st := by
  unfold readVar at h
  split at h
  · simp at h
  · split at h
    · simp at h; exact h.2.symm
    · simp at h

theorem evalExpr_atom_state {cfg : Cfg} {s : Nat} {e : Expr} (he : e.isAtomE = true) :
    ∀ {fuel : Nat} {st st' : St} {v : V}, evalExpr fuel cfg s e st = .ok (v, st') → st' = st := by
  intro fuel st st' v h
  cases fuel with
  | zero => simp [evalExpr] at h
  | succ f =>
    cases e <;> simp [Expr.isAtomE] at he <;> simp only [evalExpr] at h
    all_goals first
      | (simp at h; exact h.2.symm)
      | exact readVar_state h

theorem evalExpr_simple_state {cfg : Cfg} {s : Nat} {e : Expr} (he : e.simple = true) :
    ∀ {fuel : Nat} {st st' : St} {v : V}, evalExpr fuel cfg s e st = .ok (v, st') → st' = st := by
  intro fuel st st' v h
  cases fuel with
  | zero => simp [evalExpr] at h
  | succ f =>
    cases e with
    | add a b | lt a b | eq a b =>
      simp only [Expr.simple, Bool.and_eq_true] at he
      simp only [evalExpr] at h
      cases ha : evalExpr f cfg s a st with
      | error e' => simp [ha] at h
      | ok ra =>
        obtain ⟨va, st1⟩ := ra
        have h1 := evalExpr_atom_state he.1 ha
        subst h1
        simp only [ha] at h
        cases hb : evalExpr f cfg s b st1 with
        | error e' => simp [hb] at h
        | ok rb =>
          obtain ⟨vb, st2⟩ := rb
          have h2 := evalExpr_atom_state he.2 hb
          subst h2
          simp only [hb] at h
          split at h <;> simp at h <;> first | exact h.2.symm | skip
    | null | num _ | bool _ | ident _ | qstr _ | var _ => exact evalExpr_atom_state (by rfl) h
    | list _ _ | map _ | call _ _ | inspect _ | keywords _ | blist _ _ => simp [Expr.simple, Expr.isAtomE] at he

end Core
