/-
Core/LemmasEval.lean — small unfolding lemmas about the evaluator (Core/Eval.lean).
-/
import RsassModel.Core.Eval
namespace Core

theorem exec_nil (fuel : Nat) (cfg : Cfg) (fn : Bool) (s : Nat) (st : St) :
    exec (fuel + 1) cfg fn s [] st = .ok (none, st) := by
  simp [exec]


end Core
