/-
Core/LemmasArgs.lean — helper lemmas about Core/Args.lean (`bindRemaining`, `bindPlan`)
used by Theorems/C18.lean.  No property theorems here.
-/
import RsassModel.Core.Args
import RsassModel.Core.LemmasScope
namespace Core

theorem hasKey_eraseAssoc_ne {β} {x y : Name} (hxy : y ≠ x) (m : List (Name × β)) :
    hasKey y (eraseAssoc x m) = hasKey y m := by
  simp [hasKey, getAssoc_eraseAssoc_ne hxy]

theorem hasKey_eraseAssoc_self {β} (x : Name) (m : List (Name × β)) :
    hasKey x (eraseAssoc x m) = false := by
  simp [hasKey, getAssoc_eraseAssoc_self]

theorem hasKey_eraseAssoc_le {β} (x y : Name) (m : List (Name × β)) :
    hasKey y (eraseAssoc x m) = true → hasKey y m = true := by
  by_cases hxy : y = x
  · subst hxy; simp [hasKey_eraseAssoc_self]
  · simp [hasKey_eraseAssoc_ne hxy]

theorem hasKey_iff_mem {β} (x : Name) (m : List (Name × β)) :
    hasKey x m = true ↔ x ∈ m.map (·.1) := by
  induction m with
  | nil => simp [hasKey, getAssoc]
  | cons a r ih =>
    obtain ⟨y, w⟩ := a
    by_cases hy : y = x
    · simp [hasKey, getAssoc, hy]
    · have : ¬ x = y := fun h => hy h.symm
      simp only [hasKey, getAssoc, hy, if_false, List.map_cons, List.mem_cons, this, false_or]
      exact ih

/-- `m` with the names of all parameters in `l` removed -/
def eraseAll {β} (l : List (Name × Option Expr)) (m : List (Name × β)) : List (Name × β) :=
  l.foldl (fun m p => eraseAssoc (normName p.1) m) m

theorem hasKey_eraseAll {β} (l : List (Name × Option Expr)) (m : List (Name × β)) (y : Name) :
    hasKey y (eraseAll l m) = (hasKey y m && !(l.any fun p => normName p.1 = y)) := by
  induction l generalizing m with
  | nil => simp [eraseAll]
  | cons p r ih =>
    simp only [eraseAll, List.foldl_cons] at ih ⊢
    rw [ih]
    by_cases hy : y = normName p.1
    · subst hy; simp [hasKey_eraseAssoc_self]
    · have : ¬ normName p.1 = y := fun h => hy h.symm
      simp [hasKey_eraseAssoc_ne hy, this]

/-- a parameter that is neither named in the call nor has a default makes the loop fail -/
theorem bindRemaining_missing (l : List (Name × Option Expr)) (m : List (Name × V))
    (h : l.any (fun p => !hasKey (normName p.1) m && p.2.isNone) = true) :
    bindRemaining l m = .error .err := by
  induction l generalizing m with
  | nil => simp at h
  | cons p r ih =>
    obtain ⟨x, d⟩ := p
    simp only [List.any_cons, Bool.or_eq_true] at h
    simp only [bindRemaining, omRemove]
    cases hg : getAssoc (normName x) m with
    | some v =>
      simp only
      have hr : r.any (fun p => !hasKey (normName p.1) (eraseAssoc (normName x) m) && p.2.isNone) = true := by
        rcases h with h | h
        · simp [hasKey, hg] at h
        · rw [List.any_eq_true] at h ⊢
          obtain ⟨q, hq, hq2⟩ := h
          refine ⟨q, hq, ?_⟩
          simp only [Bool.and_eq_true, Bool.not_eq_true'] at hq2 ⊢
          refine ⟨?_, hq2.2⟩
          cases hk : hasKey (normName q.1) (eraseAssoc (normName x) m) with
          | false => rfl
          | true => have := hasKey_eraseAssoc_le _ _ _ hk; simp [this] at hq2
      rw [ih _ hr]
    | none =>
      simp only
      cases d with
      | none => rfl
      | some e =>
        simp only
        have hr : r.any (fun p => !hasKey (normName p.1) m && p.2.isNone) = true := by
          rcases h with h | h
          · simp at h
          · exact h
        rw [ih _ hr]

/-- with distinct parameter names the loop succeeds exactly when nothing is missing; it
binds every parameter (named value, else default) in order and leaves `m` minus the
parameter names -/
theorem bindRemaining_ok (l : List (Name × Option Expr)) (m : List (Name × V))
    (hnd : (l.map fun p => normName p.1).Nodup)
    (h : l.any (fun p => !hasKey (normName p.1) m && p.2.isNone) = false) :
    ∃ bs, bindRemaining l m = .ok (bs, eraseAll l m)
      ∧ bs.map (·.1) = l.map (fun p => normName p.1)
      ∧ ∀ i (hi : i < l.length), ∃ b, bs[i]? = some (normName l[i].1, b) ∧
          (match getAssoc (normName l[i].1) m with
           | some v => b = Binding.val v
           | none => ∃ e, l[i].2 = some e ∧ b = Binding.dflt e) := by
  induction l generalizing m with
  | nil => exact ⟨[], by simp [bindRemaining, eraseAll], rfl, by intro i hi; simp at hi⟩
  | cons p r ih =>
    obtain ⟨x, d⟩ := p
    simp only [List.map_cons, List.nodup_cons] at hnd
    simp only [List.any_cons, Bool.or_eq_false_iff] at h
    obtain ⟨hp, hr⟩ := h
    simp only [bindRemaining, omRemove]
    have hne : ∀ q ∈ r, normName q.1 ≠ normName x := by
      intro q hq heq
      exact hnd.1 (List.mem_map.mpr ⟨q, hq, heq⟩)
    cases hg : getAssoc (normName x) m with
    | some v =>
      simp only
      have hr' : r.any (fun p => !hasKey (normName p.1) (eraseAssoc (normName x) m) && p.2.isNone) = false := by
        rw [List.any_eq_false] at hr ⊢
        intro q hq
        have := hr q hq
        rw [hasKey_eraseAssoc_ne (hne q hq)]
        exact this
      obtain ⟨bs, hb, hnames, hval⟩ := ih (eraseAssoc (normName x) m) hnd.2 hr'
      refine ⟨(normName x, .val v) :: bs, ?_, ?_, ?_⟩
      · simp [hb, eraseAll]
      · simp [hnames]
      · intro i hi
        cases i with
        | zero => exact ⟨.val v, by simp, by simp [hg]⟩
        | succ j =>
          have hj : j < r.length := by simpa using hi
          obtain ⟨b, hb1, hb2⟩ := hval j hj
          refine ⟨b, by simpa using hb1, ?_⟩
          have hq := hne r[j] (List.getElem_mem hj)
          simp only [List.getElem_cons_succ]
          rw [getAssoc_eraseAssoc_ne hq] at hb2
          exact hb2
    | none =>
      simp only
      cases d with
      | none => simp [hasKey, hg] at hp
      | some e =>
        simp only
        obtain ⟨bs, hb, hnames, hval⟩ := ih m hnd.2 hr
        have herase : eraseAll ((x, some e) :: r) m = eraseAll r m := by
          have : eraseAssoc (normName x) m = m := by
            clear hb hval hr hp ih
            induction m with
            | nil => rfl
            | cons a t iht =>
              obtain ⟨y, w⟩ := a
              by_cases hy : y = normName x
              · simp [getAssoc, hy] at hg
              · simp only [getAssoc, hy, if_false] at hg
                simp [eraseAssoc, hy, iht hg]
          simp [eraseAll, this]
        refine ⟨(normName x, .dflt e) :: bs, ?_, ?_, ?_⟩
        · simp [hb, herase]
        · simp [hnames]
        · intro i hi
          cases i with
          | zero => exact ⟨.dflt e, by simp, by simp [hg]⟩
          | succ j =>
            have hj : j < r.length := by simpa using hi
            obtain ⟨b, hb1, hb2⟩ := hval j hj
            exact ⟨b, by simpa using hb1, by simpa using hb2⟩

/-- whatever the loop returns on success is `m` minus the parameter names (no
distinctness needed) -/
theorem bindRemaining_named (l : List (Name × Option Expr)) (m : List (Name × V))
    (bs : List (Name × Binding)) (nm : List (Name × V)) (h : bindRemaining l m = .ok (bs, nm)) :
    nm = eraseAll l m := by
  induction l generalizing m bs nm with
  | nil => simp [bindRemaining] at h; simp [eraseAll, h.2]
  | cons p r ih =>
    obtain ⟨x, d⟩ := p
    simp only [bindRemaining, omRemove] at h
    cases hg : getAssoc (normName x) m with
    | some v =>
      simp only [hg] at h
      cases hrec : bindRemaining r (eraseAssoc (normName x) m) with
      | error e => simp [hrec] at h
      | ok res =>
        obtain ⟨bs', nm'⟩ := res
        simp only [hrec, Except.ok.injEq, Prod.mk.injEq] at h
        have := ih _ _ _ hrec
        simp [eraseAll, ← h.2, this]
    | none =>
      simp only [hg] at h
      cases d with
      | none => simp at h
      | some e =>
        simp only at h
        cases hrec : bindRemaining r m with
        | error e => simp [hrec] at h
        | ok res =>
          obtain ⟨bs', nm'⟩ := res
          simp only [hrec, Except.ok.injEq, Prod.mk.injEq] at h
          have := ih _ _ _ hrec
          have herase : eraseAssoc (normName x) m = m := by
            clear h hrec ih this
            induction m with
            | nil => rfl
            | cons a t iht =>
              obtain ⟨y, w⟩ := a
              by_cases hy : y = normName x
              · simp [getAssoc, hy] at hg
              · simp only [getAssoc, hy, if_false] at hg
                simp [eraseAssoc, hy, iht hg]
          simp [eraseAll, herase, ← h.2, this]

/-- the loop only ever fails with `Err.err` (missing argument) -/
theorem bindRemaining_error_is_err (l : List (Name × Option Expr)) (m : List (Name × V)) (e : Err)
    (h : bindRemaining l m = .error e) : e = .err := by
  induction l generalizing m e with
  | nil => simp [bindRemaining] at h
  | cons p r ih =>
    obtain ⟨x, d⟩ := p
    simp only [bindRemaining, omRemove] at h
    cases hg : getAssoc (normName x) m with
    | some v =>
      simp only [hg] at h
      cases hrec : bindRemaining r (eraseAssoc (normName x) m) with
      | ok res => simp [hrec] at h
      | error e' =>
        simp only [hrec, Except.error.injEq] at h
        exact h ▸ ih _ _ hrec
    | none =>
      simp only [hg] at h
      cases d with
      | none => simp at h; exact h.symm
      | some e0 =>
        simp only at h
        cases hrec : bindRemaining r m with
        | ok res => simp [hrec] at h
        | error e' =>
          simp only [hrec, Except.error.injEq] at h
          exact h ▸ ih _ _ hrec

/-- pigeonhole: a duplicate-free list whose members all lie in `ns` is no longer than `ns` -/
theorem nodup_subset_length {α} [DecidableEq α] : ∀ (ks ns : List α), ks.Nodup → (∀ a ∈ ks, a ∈ ns) →
    ks.length ≤ ns.length := by
  intro ks
  induction ks with
  | nil => intro ns _ _; simp
  | cons a r ih =>
    intro ns hnd hsub
    simp only [List.nodup_cons] at hnd
    have ha : a ∈ ns := hsub a (List.mem_cons_self ..)
    have hsub' : ∀ b ∈ r, b ∈ ns.erase a := by
      intro b hb
      have hne : b ≠ a := fun h => hnd.1 (h ▸ hb)
      exact (List.mem_erase_of_ne hne).mpr (hsub b (List.mem_cons_of_mem _ hb))
    have := ih (ns.erase a) hnd.2 hsub'
    rw [List.length_erase_of_mem ha] at this
    have hpos : 0 < ns.length := List.length_pos_of_mem ha
    simp only [List.length_cons]
    omega

theorem zip_take_take {α β} : ∀ (ps : List α) (pos : List β),
    (ps.take (pos.take ps.length).length).zip (pos.take ps.length) = ps.zip pos := by
  intro ps
  induction ps with
  | nil => intro pos; simp
  | cons p r ih =>
    intro pos
    cases pos with
    | nil => simp
    | cons v vs => simpa [List.length_take] using ih vs

theorem drop_take_length {α β} (ps : List α) (pos : List β) :
    ps.drop (pos.take ps.length).length = ps.drop pos.length := by
  rw [List.length_take]
  by_cases h : pos.length ≤ ps.length
  · rw [Nat.min_eq_right h]
  · have h' : ps.length ≤ pos.length := by omega
    rw [Nat.min_eq_left h', List.drop_eq_nil_of_le (Nat.le_refl _), List.drop_eq_nil_of_le h']

theorem eq_nil_of_no_key {β} (m : List (Name × β)) (h : ∀ y, hasKey y m = false) : m = [] := by
  cases m with
  | nil => rfl
  | cons a t =>
    have := h a.1
    simp [hasKey, getAssoc] at this


/-! ### the `OrderMap` invariant (distinct keys) is kept by everything that builds `CallArgs.named` -/

theorem keys_setAssoc_of_mem {β} (x : Name) (v : β) (m : List (Name × β)) (h : x ∈ m.map (·.1)) :
    (setAssoc x v m).map (·.1) = m.map (·.1) := by
  induction m with
  | nil => simp at h
  | cons a r ih =>
    obtain ⟨y, w⟩ := a
    by_cases hy : y = x
    · simp [setAssoc, hy]
    · have : x ∈ r.map (·.1) := by
        simp only [List.map_cons, List.mem_cons] at h
        rcases h with h | h
        · exact absurd h.symm hy
        · exact h
      simp [setAssoc, hy, ih this]

theorem keys_setAssoc_of_not_mem {β} (x : Name) (v : β) (m : List (Name × β)) (h : x ∉ m.map (·.1)) :
    (setAssoc x v m).map (·.1) = m.map (·.1) ++ [x] := by
  induction m with
  | nil => simp [setAssoc]
  | cons a r ih =>
    obtain ⟨y, w⟩ := a
    simp only [List.map_cons, List.mem_cons, not_or] at h
    have hy : ¬ y = x := fun e => h.1 e.symm
    simp [setAssoc, hy, ih h.2]

theorem nodup_keys_setAssoc {β} (x : Name) (v : β) (m : List (Name × β)) (h : (m.map (·.1)).Nodup) :
    ((setAssoc x v m).map (·.1)).Nodup := by
  by_cases hx : x ∈ m.map (·.1)
  · rw [keys_setAssoc_of_mem x v m hx]; exact h
  · rw [keys_setAssoc_of_not_mem x v m hx]
    rw [List.nodup_append]
    refine ⟨h, by simp, ?_⟩
    intro a ha b hb
    simp only [List.mem_singleton] at hb
    subst hb
    intro e
    exact hx (e ▸ ha)

theorem nodup_keys_spread (acc : CallArgs) (v : V) (acc' : CallArgs)
    (h : (acc.named.map (·.1)).Nodup) (hs : spread acc v = .ok acc') : (acc'.named.map (·.1)).Nodup := by
  cases v with
  | atom a =>
    cases a <;> simp [spread] at hs <;> subst hs <;> exact h
  | list xs c => simp [spread] at hs; subst hs; exact h
  | blist xs c => simp [spread] at hs; subst hs; exact h
  | map kv =>
    simp only [spread, Except.ok.injEq] at hs
    subst hs
    simp only
    generalize acc.named = m at h
    induction kv generalizing m with
    | nil => simpa using h
    | cons a r ih =>
      simp only [List.foldl_cons]
      exact ih _ (nodup_keys_setAssoc _ _ _ h)
  | arglist pos named =>
    simp only [spread] at hs
    cases hadd : spread.addNamed acc.named named with
    | error e => simp [hadd] at hs
    | ok m' =>
      simp only [hadd, Except.ok.injEq] at hs
      subst hs
      simp only
      generalize acc.named = m at h hadd
      induction named generalizing m with
      | nil => simp [spread.addNamed] at hadd; subst hadd; exact h
      | cons a r ih =>
        obtain ⟨k, w⟩ := a
        simp only [spread.addNamed, omInsert] at hadd
        by_cases hk : hasKey k m = true
        · simp [hk] at hadd
        · simp only [hk, Bool.false_eq_true, if_false] at hadd
          exact ih _ (nodup_keys_setAssoc _ _ _ h) hadd

theorem hasKey_setAssoc_self {β} (x : Name) (v : β) (m : List (Name × β)) : hasKey x (setAssoc x v m) = true := by
  simp [hasKey, getAssoc_setAssoc_self]

theorem hasKey_setAssoc_mono {β} (x y : Name) (v : β) (m : List (Name × β)) (h : hasKey y m = true) :
    hasKey y (setAssoc x v m) = true := by
  by_cases hxy : y = x
  · subst hxy; exact hasKey_setAssoc_self _ _ _
  · simpa [hasKey, getAssoc_setAssoc_ne hxy] using h

theorem hasKey_foldl_mapSplat (kv : List (List Char × Atom)) :
    ∀ (m : List (Name × V)) (y : Name),
      (hasKey y m = true ∨ ∃ p ∈ kv, normName p.1 = y) →
      hasKey y (kv.foldl (fun m p => (omInsert (normName p.1) (.atom p.2) m).1) m) = true := by
  induction kv with
  | nil => intro m y h; rcases h with h | ⟨p, hp, _⟩; exact h; simp at hp
  | cons a r ih =>
    intro m y h
    simp only [List.foldl_cons]
    apply ih
    rcases h with h | ⟨p, hp, hpe⟩
    · exact Or.inl (hasKey_setAssoc_mono _ _ _ _ h)
    · simp only [List.mem_cons] at hp
      rcases hp with rfl | hp
      · left; simp only [omInsert]; rw [← hpe]; exact hasKey_setAssoc_self _ _ _
      · exact Or.inr ⟨p, hp, hpe⟩

end Core
