/- C37 — a whole module-graph scenario (≤ 3 files) evaluated with the model functions of
`Mod/Module.lean`: the module file, an optional forwarder `f` (`@forward "m" …`), an optional
earlier user `o` (`@use "m" with …`), and the main file's `@use` followed by one probe. -/
import RsassModel.Mod.Module
namespace Mod

structure FwdSpec where
  pre : Option Name
  filter : Expose
  withs : List (Name × Nat)
  /-- the forwarded module is a built-in one (`@forward "sass:math" …`) -/
  builtin : Bool := false

inductive Probe where
  | read (ns : Option Name) (k : Kind) (n : Name)
  | assign (ns n : Name) (v : Nat)
  /-- `ns.$n: v !default` -/
  | assignD (ns n : Name) (v : Nat)

structure Scenario where
  decls : List Decl
  url : Name
  fwd : Option FwdSpec
  as_ : UseAs
  withs : List (Name × Nat)
  preWiths : Option (List (Name × Nat))
  builtin : Bool

def normWiths (w : List (Name × Nat)) : List (Name × Nat) := w.map fun p => (norm p.1, p.2)
def normDecls (d : List Decl) : List Decl := d.map fun x => { x with name := norm x.name }

def normExpose : Expose → Expose
  | .all => .all
  | .show_ f v => .show_ (f.map norm) (v.map norm)
  | .hide f v => .hide (f.map norm) (v.map norm)

/-- the module as the main file's `@use` receives it -/
def Scenario.module (q : ModQuirks) (sc : Scenario) : Except Err Module :=
  let decls := normDecls sc.decls
  match sc.fwd with
  | some f =>
    if f.builtin then
      -- `get_global_module`: no configuration; the members are the built-in module's
      if !f.withs.isEmpty then .error .configBuiltin
      else
        let ms : Members := decls.map fun d => ⟨d.kind, d.name, d.val⟩
        .ok ⟨forwardMembers q f.pre (normExpose f.filter) ms, markerSurvives q f.pre (normExpose f.filter)⟩
    else
    match configure q.withUnknownForward (normWiths f.withs) decls with
    | .error e => .error e
    | .ok ms => .ok ⟨forwardMembers q f.pre (normExpose f.filter) ms, false⟩
  | none =>
    let r := match sc.preWiths with
      | some pw => reload q (normWiths pw) (normWiths sc.withs) decls q.withUnknownUse
      | none => configure q.withUnknownUse (normWiths sc.withs) decls
    match r with
    | .error e => .error e
    | .ok ms => .ok ⟨ms, sc.builtin⟩

/-- the main file's scope after its `@use` -/
def Scenario.scope (q : ModQuirks) (sc : Scenario) : Except Err Scope :=
  if !useParses q sc.as_ (!sc.withs.isEmpty) then .error .undefined
  else if sc.builtin ∧ !sc.withs.isEmpty then .error .configBuiltin
  else
    match sc.module q with
    | .error e => .error e
    | .ok m => useModule q {} sc.url sc.as_ (!sc.withs.isEmpty ∧ sc.fwd.isNone) m

/-- result of one probe: a value, an error, or (a bare function name that resolves to nothing)
a plain CSS function -/
inductive Res where
  | val (v : Nat) | err | css
deriving DecidableEq

def runProbe (q : ModQuirks) (sc : Scenario) (p : Probe) : Res :=
  match sc.scope q with
  | .error _ => .err
  | .ok s =>
    match p with
    | .read ns k n =>
      match s.resolve ns k n with
      | .ok v => .val v
      | .error _ => if ns.isNone ∧ k = .fn then .css else .err
    | .assign ns n v =>
      match s.assign ns n v with
      | .error _ => .err
      | .ok s' => match s'.resolve (some ns) .var n with
        | .ok v => .val v
        | .error _ => .err
    | .assignD ns n v =>
      -- the same checks; an existing (non-null) value wins over a `!default` assignment
      match s.assign ns n v with
      | .error _ => .err
      | .ok _ => match s.resolve (some ns) .var n with
        | .ok v => .val v
        | .error _ => .err

end Mod
