/- Helper lemmas for C37. -/
import RsassModel.Mod.Module
namespace Mod

theorem lookup_cons (x : Member) (ms : Members) (k : Kind) (n : Name) :
    lookup (x :: ms) k n = if x.kind = k ∧ x.name = n then some x.val else lookup ms k n := by
  unfold lookup
  simp only [List.find?_cons]
  by_cases h : x.kind = k ∧ x.name = n <;> simp [h]

theorem lookup_filter_ne (ms : Members) (m : Member) (k : Kind) (n : Name)
    (h : ¬(m.kind = k ∧ m.name = n)) :
    lookup (ms.filter fun x => !(x.kind = m.kind ∧ x.name = m.name)) k n = lookup ms k n := by
  induction ms with
  | nil => rfl
  | cons y ys ih =>
    simp only [List.filter_cons]
    by_cases hy : y.kind = m.kind ∧ y.name = m.name
    · have hyk : ¬(y.kind = k ∧ y.name = n) := by
        intro hh; exact h ⟨hy.1 ▸ hh.1, hy.2 ▸ hh.2⟩
      have hmk : ¬(m.kind = k ∧ m.name = n) := h
      simp only [hy, and_self, decide_true, Bool.not_true, Bool.false_eq_true, ↓reduceIte, lookup_cons, ih, hmk]
    · simp only [hy, decide_false, Bool.not_false, ↓reduceIte, lookup_cons, ih]

theorem lookup_insert_same (ms : Members) (m : Member) :
    lookup (insert ms m) m.kind m.name = some m.val := by
  simp [insert, lookup_cons]

theorem lookup_insert_other (ms : Members) (m : Member) (k : Kind) (n : Name)
    (h : ¬(m.kind = k ∧ m.name = n)) : lookup (insert ms m) k n = lookup ms k n := by
  simp only [insert, lookup_cons, h, ↓reduceIte]
  exact lookup_filter_ne ms m k n h

theorem lookup_insert (ms : Members) (m : Member) (k : Kind) (n : Name) :
    lookup (insert ms m) k n = if m.kind = k ∧ m.name = n then some m.val else lookup ms k n := by
  by_cases h : m.kind = k ∧ m.name = n
  · obtain ⟨rfl, rfl⟩ := h; simp [lookup_insert_same]
  · simp [h, lookup_insert_other ms m k n h]

/-- `expose_star` = the module's member if it has one, else the scope's own -/
theorem lookup_exposeStar (own m : Members) (k : Kind) (n : Name) :
    lookup (exposeStar own m) k n = match lookup m k n with
      | some v => some v
      | none => lookup own k n := by
  induction m with
  | nil => simp [exposeStar, lookup]
  | cons x xs ih =>
    have : exposeStar own (x :: xs) = insert (exposeStar own xs) x := rfl
    rw [this, lookup_insert, lookup_cons]
    by_cases h : x.kind = k ∧ x.name = n
    · simp [h]
    · simp [h, ih]

/-- a name that is already configured makes the `with` loop fail -/
theorem preload_present (withs : List (Name × Nat)) (acc : Members) (n : Name)
    (hacc : (lookup acc .var n).isSome = true) (hn : n ∈ withs.map Prod.fst) :
    preload withs acc = .error .configuredTwice := by
  induction withs generalizing acc with
  | nil => simp at hn
  | cons w rest ih =>
    obtain ⟨m, v⟩ := w
    simp only [preload]
    by_cases hm : (lookup acc .var m).isSome = true
    · simp [hm]
    · simp only [hm, Bool.false_eq_true, ↓reduceIte]
      have hne : m ≠ n := by
        intro e; subst e; exact hm hacc
      have hn' : n ∈ rest.map Prod.fst := by
        simp only [List.map_cons, List.mem_cons] at hn
        rcases hn with h | h
        · exact absurd h.symm hne
        · exact h
      apply ih _ _ hn'
      rw [lookup_insert_other _ _ _ _ (by simp [hne])]
      exact hacc

theorem preload_dup (withs : List (Name × Nat)) (acc : Members)
    (h : ¬(withs.map Prod.fst).Nodup) : preload withs acc = .error .configuredTwice := by
  induction withs generalizing acc with
  | nil => simp at h
  | cons w rest ih =>
    obtain ⟨m, v⟩ := w
    simp only [preload]
    by_cases hm : (lookup acc .var m).isSome = true
    · simp [hm]
    · simp only [hm, Bool.false_eq_true, ↓reduceIte]
      simp only [List.map_cons, List.nodup_cons] at h
      by_cases hmem : m ∈ rest.map Prod.fst
      · have hs := lookup_insert_same acc ⟨.var, m, v⟩
        exact preload_present rest _ m (by simp at hs; simp [hs]) hmem
      · exact ih _ (fun hnd => h ⟨hmem, hnd⟩)

/-- a configured value survives declarations that are all `!default` -/
theorem runDecls_default_keeps (decls : List Decl) (acc : Members) (n : Name) (v : Nat)
    (hall : ∀ d ∈ decls, d.kind = .var → d.name = n → d.dflt = true)
    (hacc : lookup acc .var n = some v) : lookup (runDecls decls acc) .var n = some v := by
  induction decls generalizing acc with
  | nil => simpa [runDecls]
  | cons d rest ih =>
    simp only [runDecls]
    have hrest : ∀ d' ∈ rest, d'.kind = .var → d'.name = n → d'.dflt = true :=
      fun d' hd' => hall d' (List.mem_cons_of_mem _ hd')
    split
    · exact ih acc hrest hacc
    · next hcond =>
      apply ih _ hrest
      by_cases hd : d.kind = .var ∧ d.name = n
      · exfalso
        apply hcond
        refine ⟨hd.1, hall d (by simp) hd.1 hd.2, ?_⟩
        rw [hd.2, hacc]; rfl
      · rw [lookup_insert_other _ _ _ _ hd]; exact hacc

/-- declarations of other names leave a variable alone -/
theorem runDecls_untouched (decls : List Decl) (acc : Members) (k : Kind) (n : Name)
    (hno : ∀ d ∈ decls, ¬(d.kind = k ∧ d.name = n)) :
    lookup (runDecls decls acc) k n = lookup acc k n := by
  induction decls generalizing acc with
  | nil => simp [runDecls]
  | cons d rest ih =>
    simp only [runDecls]
    have hrest : ∀ d' ∈ rest, ¬(d'.kind = k ∧ d'.name = n) := fun d' hd' => hno d' (List.mem_cons_of_mem _ hd')
    split
    · exact ih acc hrest
    · rw [ih _ hrest, lookup_insert_other _ _ _ _ (hno d (by simp))]

theorem takeWhile_append_stop {α : Type} (p : α → Bool) (l r : List α) (a : α)
    (hl : ∀ x ∈ l, p x = true) (ha : p a = false) : (l ++ a :: r).takeWhile p = l := by
  induction l with
  | nil => simp [ha]
  | cons x xs ih =>
    simp only [List.cons_append, List.takeWhile_cons, hl x (by simp), ↓reduceIte]
    rw [ih fun y hy => hl y (List.mem_cons_of_mem _ hy)]

theorem takeWhile_all {α : Type} (p : α → Bool) (l : List α) (hl : ∀ x ∈ l, p x = true) :
    l.takeWhile p = l := by
  induction l with
  | nil => rfl
  | cons x xs ih =>
    simp only [List.takeWhile_cons, hl x (by simp), ↓reduceIte]
    rw [ih fun y hy => hl y (List.mem_cons_of_mem _ hy)]

/-- the last segment of `dir/seg` -/
theorem lastSegment_slash (dir seg : Name) (h : ∀ c ∈ seg, c ≠ '/' ∧ c ≠ ':') :
    lastSegment (dir ++ '/' :: seg) = seg := by
  unfold lastSegment
  have : (dir ++ '/' :: seg).reverse = seg.reverse ++ '/' :: dir.reverse := by simp
  rw [this, takeWhile_append_stop _ _ _ _ (by
    intro x hx
    have := h x (List.mem_reverse.mp hx)
    simp [this.1, this.2]) (by simp)]
  simp

end Mod
