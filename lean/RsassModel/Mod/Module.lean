/-
C37 — model of the module system of rsass as far as `@use`/`@forward` configuration and
visibility go:
  * `Item::Use` / `Item::Forward` with-configuration loop (output/transform.rs),
  * `ScopeRef::do_use`, `expose`, `expose_star`, `with_forwarded`, `Scope::set_variable`
    module path, `define_module`/`get_module` (variablescope.rs),
  * `Expose::allow_fun` / `allow_var` (sass/item.rs), `Name` normalisation (sass/name.rs).
Values are abstract (`Nat`); names are `List Char`.
-/
namespace Mod

abbrev Name := List Char

/-- Deviations of the code from the property, one per call site. -/
structure ModQuirks where
  /-- `Item::Use` before fix 17cd11e: a `with` variable the module does not declare with `!default`
  (never declared at all, or declared without `!default`) is accepted; an undeclared one even
  becomes a member -/
  withUnknownUse : Bool := false
  /-- `Item::Forward`: the same in the `@forward … with` loop -/
  withUnknownForward : Bool := false
  /-- `CssData::load_module` cache: `with` on a module that was already loaded (and configured)
  is silently ignored instead of being an error -/
  reconfigureIgnored : Bool := false
  /-- `do_use` `KeepName`: namespace = last url segment with `_`→`-`; a leading `_` and the
  extension are not stripped -/
  namespaceRaw : Bool := false
  /-- `do_use` `Prefix` branch: functions are filtered with `allow_var`, variables with `allow_fun` -/
  prefixFilterSwapped : Bool := false
  /-- parser/imports.rs `use2`: `with (…)` is only accepted *before* `as …`; the Sass order
  `@use url as name with (…)` is a parse error -/
  useAsWithRejected : Bool := false
  /-- the "built-in" mark of a module is the variable `@scope_name@` copied along with the other
  variables: a `@forward "sass:…"` with a prefix renames it and one with `show` drops it, and
  `Scope::set_variable` then no longer refuses `ns.$x: v` -/
  builtinMarkerLost : Bool := false

def modAsIs : ModQuirks :=
  { withUnknownUse := true, withUnknownForward := true, reconfigureIgnored := true,
    namespaceRaw := true, prefixFilterSwapped := true, useAsWithRejected := true,
    builtinMarkerLost := true }
def modSpec : ModQuirks := {}

inductive Kind where
  | var | fn | mixin
deriving DecidableEq, Repr

inductive Err where
  | configuredTwice | unknownConfig | alreadyLoaded | configBuiltin | noModule | undefined
  | modifiedBuiltin
deriving DecidableEq, Repr

/-- `Name::from`: `-` and `_` are the same character in a name -/
def norm (n : Name) : Name := n.map fun c => if c = '-' then '_' else c

/-- a member of a module scope: kind, (normalised) name, value -/
structure Member where
  kind : Kind
  name : Name
  val : Nat
deriving DecidableEq, Repr

abbrev Members := List Member

def lookup (ms : Members) (k : Kind) (n : Name) : Option Nat :=
  (ms.find? fun m => m.kind = k ∧ m.name = n).map (·.val)

/-- `BTreeMap::insert`: replace or add -/
def insert (ms : Members) (m : Member) : Members :=
  m :: ms.filter fun x => !(x.kind = m.kind ∧ x.name = m.name)

/-- a top-level declaration of a module file -/
structure Decl where
  kind : Kind
  name : Name
  val : Nat
  /-- `!default` (variables only) -/
  dflt : Bool := false
deriving DecidableEq, Repr

/-! ## `with` configuration (`Item::Use` / `Item::Forward` in output/transform.rs) -/

/-- the loop over `with`: `module.define(name, value)` unless the name is already there -/
def preload : List (Name × Nat) → Members → Except Err Members
  | [], acc => .ok acc
  | (n, v) :: rest, acc =>
    if (lookup acc .var n).isSome then .error .configuredTwice
    else preload rest (insert acc ⟨.var, n, v⟩)

/-- running the module's top-level declarations in the pre-loaded scope
(`set_variable` with `default`: an existing non-null value wins) -/
def runDecls : List Decl → Members → Members
  | [], acc => acc
  | d :: rest, acc =>
    if d.kind = .var ∧ d.dflt ∧ (lookup acc .var d.name).isSome then runDecls rest acc
    else runDecls rest (insert acc ⟨d.kind, d.name, d.val⟩)

/-- the module declares `$n … !default` (what `check_config` of fix 17cd11e looks for: a
configured name must be met by a `!default` declaration) -/
def declares (decls : List Decl) (n : Name) : Bool :=
  decls.any fun d => d.kind = .var ∧ d.name = n ∧ d.dflt

/-- load a module with a configuration.  `acceptUnknown` is the deviation flag of the site. -/
def configure (acceptUnknown : Bool) (withs : List (Name × Nat)) (decls : List Decl) :
    Except Err Members :=
  match preload withs [] with
  | .error e => .error e
  | .ok pre =>
    if !acceptUnknown ∧ withs.any (fun w => !declares decls w.1) then .error .unknownConfig
    else .ok (runDecls decls pre)

/-- the module cache (`CssData::load_module`): a module that was already loaded with the
configuration `first` is requested again with the configuration `again` -/
def reload (q : ModQuirks) (first again : List (Name × Nat)) (decls : List Decl)
    (acceptUnknown : Bool) : Except Err Members :=
  if again.isEmpty ∨ q.reconfigureIgnored then configure acceptUnknown first decls
  else .error .alreadyLoaded

/-! ## Namespace of `@use url` without `as` (`do_use`, `UseAs::KeepName`) -/

def lastSegment (url : Name) : Name :=
  (url.reverse.takeWhile fun c => c ≠ '/' ∧ c ≠ ':').reverse

/-- namespaces are compared as `Name`s (`split_module` normalises), so the result is normalised -/
def namespaceOf (q : ModQuirks) (url : Name) : Name :=
  let seg := lastSegment url
  if q.namespaceRaw then norm seg
  else
    let seg := if seg.head? = some '_' then seg.tail else seg
    norm (seg.takeWhile (· ≠ '.'))

/-! ## `@forward` filters (`Expose`, `ScopeRef::expose`, `do_use` `Prefix` branch) -/

inductive Expose where
  | all
  | show_ (funs vars : List Name)
  | hide (funs vars : List Name)
deriving DecidableEq, Repr

def Expose.allowFun : Expose → Name → Bool
  | .all, _ => true
  | .show_ f _, n => f.contains n
  | .hide f _, n => !f.contains n

def Expose.allowVar : Expose → Name → Bool
  | .all, _ => true
  | .show_ _ v, n => v.contains n
  | .hide _ v, n => !v.contains n

/-- what the property demands of a filter: variables against the `$` names, functions and
mixins against the plain names -/
def Expose.allows (e : Expose) (k : Kind) (n : Name) : Bool :=
  match k with
  | .var => e.allowVar n
  | _ => e.allowFun n

/-- the filter the code applies to a member of kind `k` in the `Prefix` branch -/
def prefixAllows (q : ModQuirks) (e : Expose) (k : Kind) (n : Name) : Bool :=
  if q.prefixFilterSwapped then
    match k with
    | .fn => e.allowVar n
    | .var => e.allowFun n
    | .mixin => e.allowFun n
  else e.allows k n

/-- members of `m` as seen through `@forward … [as pre*] [show|hide …]`: each member is
renamed `pre ++ name` and kept iff the filter allows the *new* name.  Without `as` the code
goes through `ScopeRef::expose` (correct filters); with `as` through the `Prefix` branch. -/
def forwardMembers (q : ModQuirks) (pre : Option Name) (e : Expose) (m : Members) : Members :=
  match pre with
  | none => m.filter fun x => e.allows x.kind x.name
  | some p =>
    (m.filter fun x => prefixAllows q e x.kind (norm p ++ x.name)).map fun x =>
      { x with name := norm p ++ x.name }

/-- is a built-in module still recognised as built-in when seen through
`@forward "sass:…" [as pre*] [show|hide …]`? -/
def markerSurvives (q : ModQuirks) (pre : Option Name) (e : Expose) : Bool :=
  if q.builtinMarkerLost then pre.isNone ∧ e.allowVar ['@', 's', 'c', 'o', 'p', 'e', '_', 'n', 'a', 'm', 'e', '@']
  else true

/-! ## Using a module (`do_use`, `define_module`, `expose_star`, lookups) -/

inductive UseAs where
  | keepName
  | star
  | name (n : Name)
deriving DecidableEq, Repr

/-- does `@use url [as …] [with (…)]` (Sass clause order) get past the parser? -/
def useParses (q : ModQuirks) (as_ : UseAs) (hasWith : Bool) : Bool :=
  !(q.useAsWithRejected ∧ as_ ≠ .keepName ∧ hasWith)

/-- a module as other files see it -/
structure Module where
  members : Members
  /-- the `@scope_name@` marker of built-in modules -/
  builtin : Bool := false
deriving DecidableEq, Repr

/-- the using file's scope: own members and named modules -/
structure Scope where
  own : Members := []
  modules : List (Name × Module) := []
deriving Repr

def Scope.getModule (s : Scope) (ns : Name) : Option Module :=
  (s.modules.find? fun p => p.1 = norm ns).map (·.2)

/-- `expose_star`: every member of the module is defined in the scope itself -/
def exposeStar (own : Members) (m : Members) : Members := m.foldr (fun x acc => insert acc x) own

def isBuiltinUrl (url : Name) : Bool := ['s', 'a', 's', 's', ':'].isPrefixOf url

/-- `Item::Use` for an already evaluated module: built-in modules refuse `with` -/
def useModule (q : ModQuirks) (s : Scope) (url : Name) (as_ : UseAs) (hasWith : Bool) (m : Module) :
    Except Err Scope :=
  if m.builtin ∧ hasWith then .error .configBuiltin
  else
    match as_ with
    | .keepName => .ok { s with modules := (namespaceOf q url, m) :: s.modules }
    | .name n => .ok { s with modules := (norm n, m) :: s.modules }
    | .star => .ok { s with own := exposeStar s.own m.members }

/-- reading a member: `ns.name` goes to the module, a bare name only to the scope itself -/
def Scope.resolve (s : Scope) (ns : Option Name) (k : Kind) (n : Name) : Except Err Nat :=
  match ns with
  | none => match lookup s.own k (norm n) with
    | some v => .ok v
    | none => .error .undefined
  | some ns =>
    match s.getModule ns with
    | none => .error .noModule
    | some m => match lookup m.members k (norm n) with
      | some v => .ok v
      | none => .error .undefined

/-- `ns.$name: v` (`Scope::set_variable`, module path): the module must exist, the variable must
exist in it, and built-in modules cannot be modified -/
def Scope.assign (s : Scope) (ns n : Name) (v : Nat) : Except Err Scope :=
  match s.getModule ns with
  | none => .error .noModule
  | some m =>
    match lookup m.members .var (norm n) with
    | none => .error .undefined
    | some _ =>
      if m.builtin then .error .modifiedBuiltin
      else
        let m' : Module := { m with members := insert m.members ⟨.var, norm n, v⟩ }
        .ok { s with modules := s.modules.map fun p => if p.1 = norm ns then (p.1, m') else p }

end Mod
